#!/bin/sh
# usage: tools/mkmutant.sh <name> <file> <python-expr old> <python-expr new>   (run from /verif)
# Creates selftest/mutants/<name>.diff by replacing exactly one occurrence of old by new in <file> of a scratch worktree.
set -e; trap 'git -C /repo worktree remove --force $wt 2>/dev/null' EXIT
name=$1; file=$2; old=$3; new=$4
wt=$(mktemp -d /tmp/mut.XXXXXX); rmdir $wt
git -C /repo worktree add -q $wt HEAD
python3 - "$wt/$file" "$old" "$new" <<'PY'
import sys
p, old, new = sys.argv[1:4]
old = old.encode().decode('unicode_escape'); new = new.encode().decode('unicode_escape')
s = open(p).read()
assert s.count(old) == 1, "occurrences of old text: %d" % s.count(old)
open(p, 'w').write(s.replace(old, new))
PY
git -C $wt diff > /verif/selftest/mutants/$name.diff

wc -l /verif/selftest/mutants/$name.diff
