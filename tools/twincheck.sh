#!/bin/sh
# usage: tools/twincheck.sh <patch.diff> [<prop>...]   (default: all claimed properties)
# A *refactor twin* is a behaviour-preserving change of /repo.  The patch is applied to a scratch worktree of /repo's HEAD
# (outside /repo and /verif), every check is run against it (VERIF_REPO) and must stay silent (exit 0); the worktree is removed.
# Prints one line per check that is NOT silent and a final line `TWIN <patch> alarms=<n>`.
patch=$(readlink -f "$1"); shift
props="$*"
[ -z "$props" ] && props="C01 C02 C03 C04 C06 C07 C08 C10 C11 C14 C15 C16 C17 C19 C20"
wt=$(mktemp -d /tmp/twinchk.XXXXXX); rmdir "$wt"
ev=$(mktemp -d /tmp/twinev.XXXXXX)
git -C /repo worktree add -q "$wt" HEAD
for f in crypto/cryptoConfig.h matrixssl/matrixsslConfig.h core/config/coreConfig.h; do
  [ -f /repo/$f ] && cp /repo/$f "$wt/$f"
done
if ! git -C "$wt" apply "$patch"; then echo "PATCH DOES NOT APPLY $patch"; git -C /repo worktree remove --force "$wt"; rm -rf "$ev"; exit 3; fi
n=0
for p in $props; do
  VERIF_REPO="$wt" VERIF_EVIDENCE_DIR="$ev" /verif/check "$p" > "$wt/.out_$p" 2>&1
  rc=$?
  if [ $rc -ne 0 ]; then
    n=$((n+1))
    echo "ALARM $p exit=$rc on $(basename $(dirname $patch))/$(basename $patch)"
    grep -a -A1 "^VIOLATION\|ANALYSIS-BROKEN" "$wt/.out_$p" | grep -a -v "^--" | cut -c1-400 | head -12
  fi
done
git -C /repo worktree remove --force "$wt"; rm -rf "$ev"
echo "TWIN $patch alarms=$n"
