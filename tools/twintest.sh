#!/bin/sh
# usage: tools/twintest.sh [pattern] [-j N]
# Runs every refactor twin (selftest/twins/*.diff: behaviour-preserving edits of /repo written by sub-agents that saw only the
# property text) through ALL checks; a twin passes when every check stays silent (exit 0).  Not a registered check: it tests the
# checkers for false alarms, the way tools/selftest.sh tests them for misses.  Twins listed in selftest/twins/KNOWN_ALARMS are
# the ones a rule still fires on (shape assumptions recorded in DESIGN.md S.4); they are reported as KNOWN, anything else as ALARM.
cd /verif
pat=${1:-}
mkdir -p /tmp/twinres
ls selftest/twins/*$pat*.diff | xargs -P ${TWIN_JOBS:-4} -I{} sh -c 'n=$(basename {} .diff); tools/twincheck.sh {} > /tmp/twinres/$n.log 2>&1'
ok=0; known=0; bad=0
for f in selftest/twins/*$pat*.diff; do
  n=$(basename $f .diff)
  if grep -q "alarms=0" /tmp/twinres/$n.log; then ok=$((ok+1));
  elif grep -q "^$n\b" selftest/twins/KNOWN_ALARMS 2>/dev/null; then known=$((known+1)); echo "KNOWN $n: $(grep -a '^ALARM' /tmp/twinres/$n.log | tr '\n' ' ')";
  else bad=$((bad+1)); echo "ALARM $n: $(grep -a '^ALARM' /tmp/twinres/$n.log | tr '\n' ' ')"; fi
done
echo "twintest: silent=$ok known=$known alarm=$bad"
