#!/bin/sh
# usage: tools/selftest.sh [pattern]   - runs every selftest/mutants/<Cxx>-*.diff (and seeded/<Cxx>-*/patch.diff) through the
# check of its property on a scratch worktree; a mutant counts as detected when the check exits 1 with a VIOLATION line.
# Not a registered check: it tests the checkers (they must fire on a broken variant and are silent on /repo).
cd /verif
pat=${1:-}
ok=0; miss=0
for f in selftest/mutants/*$pat*.diff seeded/*$pat*/patch.diff; do
  [ -f "$f" ] || continue
  case $f in seeded/*) id=$(basename $(dirname $f));; *) id=$(basename $f .diff);; esac
  prop=${id%%-*}
  [ -f rules/$prop.py ] || { echo "SKIP $id (no check for $prop)"; continue; }
  out=$(tools/seedcheck.sh $f $prop 2>&1)
  if echo "$out" | grep -q "^RESULT $prop=1"; then ok=$((ok+1)); echo "DETECTED $id: $(echo "$out" | grep -A1 '^VIOLATION' | sed -n 2p | cut -c1-140)"
  else miss=$((miss+1)); echo "MISSED   $id: $(echo "$out" | tail -1)"; fi
done
echo "selftest: detected=$ok missed=$miss"
