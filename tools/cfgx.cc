// cfgx - libTooling front end for the /verif static checkers.
//
// For one translation unit it writes a JSON document holding, for every
// function defined in a non-system file, the clang CFG (blocks, successor
// edges with truth / case labels) and every top-level statement of each block
// as a *resolved* expression tree: declaration ids, record+field of member
// accesses, direct callees, integer constants folded by clang's evaluator.
// It also writes record layouts, file-scope variables with their evaluated
// initialisers and the object-like macros of the project (name -> body), so
// that rule slots can be filled from the repository itself.
//
// usage: cfgx <out.json> <source.c> -- <compiler flags>
//
// Nothing here decides a property; the deciding steps are in /verif/sa and
// /verif/rules and work on this IR.

#include "clang/AST/ASTConsumer.h"
#include "clang/AST/ASTContext.h"
#include "clang/AST/Decl.h"
#include "clang/AST/Expr.h"
#include "clang/AST/RecordLayout.h"
#include "clang/AST/Stmt.h"
#include "clang/Analysis/CFG.h"
#include "clang/Basic/SourceManager.h"
#include "clang/Frontend/CompilerInstance.h"
#include "clang/Frontend/FrontendAction.h"
#include "clang/Lex/Lexer.h"
#include "clang/Lex/MacroInfo.h"
#include "clang/Lex/PPCallbacks.h"
#include "clang/Lex/Preprocessor.h"
#include "clang/Tooling/CompilationDatabase.h"
#include "clang/Tooling/Tooling.h"
#include "llvm/ADT/StringExtras.h"
#include "llvm/Support/JSON.h"
#include "llvm/Support/raw_ostream.h"

#include <map>
#include <set>
#include <string>
#include <vector>

using namespace clang;

static std::string g_out;

namespace {

struct MacroRec {
  std::string name, body, file;
  unsigned line;
};

class MacroCollector : public PPCallbacks {
public:
  MacroCollector(Preprocessor &PP, std::vector<MacroRec> &Out)
      : PP(PP), Out(Out) {}
  void MacroDefined(const Token &Tok, const MacroDirective *MD) override {
    const MacroInfo *MI = MD->getMacroInfo();
    if (!MI || MI->isFunctionLike() || MI->isBuiltinMacro())
      return;
    SourceManager &SM = PP.getSourceManager();
    SourceLocation L = MI->getDefinitionLoc();
    if (L.isInvalid() || SM.isInSystemHeader(L) || !SM.isWrittenInMainFile(L) &&
        SM.getFilename(L).empty())
      return;
    if (MI->getNumTokens() > 12)
      return;
    std::string body;
    for (const Token &T : MI->tokens()) {
      if (!body.empty() && T.hasLeadingSpace())
        body += ' ';
      body += PP.getSpelling(T);
    }
    MacroRec R;
    R.name = Tok.getIdentifierInfo()->getName().str();
    R.body = body;
    R.file = SM.getFilename(L).str();
    R.line = SM.getSpellingLineNumber(L);
    Out.push_back(R);
  }

private:
  Preprocessor &PP;
  std::vector<MacroRec> &Out;
};

class Emitter {
public:
  Emitter(ASTContext &Ctx, llvm::json::OStream &J) : Ctx(Ctx), J(J),
      SM(Ctx.getSourceManager()) {}

  ASTContext &Ctx;
  llvm::json::OStream &J;
  SourceManager &SM;
  std::map<const Decl *, unsigned> LocalIds;
  std::map<const Stmt *, unsigned> TermIds; // logical / conditional terminators
  unsigned NextLocal = 0;

  std::string tyStr(QualType T) {
    if (T.isNull())
      return "?";
    return T.getCanonicalType().getUnqualifiedType().getAsString();
  }

  std::string recName(const RecordDecl *RD) {
    if (!RD)
      return "?";
    if (!RD->getName().empty())
      return RD->getName().str();
    if (const TypedefNameDecl *TD = RD->getTypedefNameForAnonDecl())
      return TD->getName().str();
    // anonymous member struct/union: name after parent + location
    PresumedLoc PL = SM.getPresumedLoc(SM.getExpansionLoc(RD->getLocation()));
    std::string s = "anon@";
    if (PL.isValid()) {
      s += llvm::sys::path::filename(PL.getFilename()).str();
      s += ":" + std::to_string(PL.getLine());
    }
    return s;
  }

  unsigned lineOf(SourceLocation L) {
    if (L.isInvalid())
      return 0;
    return SM.getExpansionLineNumber(L);
  }
  std::string fileOf(SourceLocation L) {
    if (L.isInvalid())
      return "";
    PresumedLoc PL = SM.getPresumedLoc(SM.getExpansionLoc(L));
    if (!PL.isValid())
      return "";
    return PL.getFilename();
  }

  std::string srcText(const Stmt *S, unsigned Max = 160) {
    SourceLocation B = SM.getExpansionLoc(S->getBeginLoc());
    SourceLocation E = SM.getExpansionRange(S->getEndLoc()).getEnd();
    if (B.isInvalid() || E.isInvalid())
      return "";
    CharSourceRange R = CharSourceRange::getTokenRange(B, E);
    llvm::StringRef T = Lexer::getSourceText(R, SM, Ctx.getLangOpts());
    std::string s;
    bool sp = false;
    for (char c : T) {
      if (c == '\n' || c == '\t' || c == ' ' || c == '\r') {
        sp = true;
        continue;
      }
      if (sp && !s.empty())
        s += ' ';
      sp = false;
      s += c;
      if (s.size() >= Max) {
        s += "...";
        break;
      }
    }
    return llvm::json::fixUTF8(s);
  }

  void emitVarRef(const VarDecl *VD) {
    J.attribute("k", "var");
    J.attribute("n", VD->getName());
    if (VD->isLocalVarDeclOrParm() && !VD->isStaticLocal()) {
      auto It = LocalIds.find(VD->getCanonicalDecl());
      unsigned id;
      if (It == LocalIds.end()) {
        id = NextLocal++;
        LocalIds[VD->getCanonicalDecl()] = id;
      } else
        id = It->second;
      J.attribute("id", id);
      J.attribute("sc", isa<ParmVarDecl>(VD) ? "p" : "l");
    } else {
      J.attribute("sc", VD->isStaticLocal()
                            ? "sl"
                            : (VD->getStorageClass() == SC_Static ? "s" : "g"));
    }
    J.attribute("t", tyStr(VD->getType()));
  }

  bool tryFold(const Expr *E) {
    if (E->isValueDependent() || E->containsErrors())
      return false;
    QualType T = E->getType();
    if (T.isNull())
      return false;
    if (T->isPointerType()) {
      if (E->isNullPointerConstant(Ctx, Expr::NPC_ValueDependentIsNotNull)) {
        J.attribute("k", "int");
        J.attribute("v", 0);
        J.attribute("null", true);
        return true;
      }
      return false;
    }
    if (!T->isIntegralOrEnumerationType())
      return false;
    Expr::EvalResult R;
    if (!E->EvaluateAsInt(R, Ctx, Expr::SE_NoSideEffects))
      return false;
    llvm::APSInt V = R.Val.getInt();
    J.attribute("k", "int");
    if (V.isSigned() ? V.getMinSignedBits() <= 64 : V.getActiveBits() <= 63)
      J.attribute("v", V.getExtValue());
    else if (V.getActiveBits() <= 64) {
      J.attribute("v", (int64_t)V.getZExtValue());
      J.attribute("u64", llvm::toString(V, 10));
    } else {
      J.attribute("v", 0);
      J.attribute("big", llvm::toString(V, 10));
    }
    const Expr *I = E->IgnoreParenCasts();
    if (auto *DR = dyn_cast<DeclRefExpr>(I))
      if (auto *EC = dyn_cast<EnumConstantDecl>(DR->getDecl()))
        J.attribute("n", EC->getName());
    if (isa<UnaryExprOrTypeTraitExpr>(I))
      J.attribute("sz", true);
    return true;
  }

  static const char *unop(UnaryOperatorKind K) {
    switch (K) {
    case UO_PostInc: return "post++";
    case UO_PostDec: return "post--";
    case UO_PreInc: return "++";
    case UO_PreDec: return "--";
    case UO_AddrOf: return "&";
    case UO_Deref: return "*";
    case UO_Plus: return "+";
    case UO_Minus: return "-";
    case UO_Not: return "~";
    case UO_LNot: return "!";
    default: return "?";
    }
  }

  void emitInitList(const InitListExpr *IL) {
    J.attribute("k", "init");
    QualType T = IL->getType();
    if (const RecordType *RT = T->getAs<RecordType>()) {
      const RecordDecl *RD = RT->getDecl();
      J.attribute("rec", recName(RD));
      J.attributeArray("f", [&] {
        if (RD->isUnion()) {
          if (const FieldDecl *FD = IL->getInitializedFieldInUnion())
            J.value(FD->getName());
        } else {
          for (const FieldDecl *FD : RD->fields()) {
            if (FD->isUnnamedBitfield())
              continue;
            J.value(FD->getName());
          }
        }
      });
    } else if (T->isArrayType()) {
      J.attribute("arr", true);
    }
    J.attributeArray("e", [&] {
      for (const Expr *I : IL->inits())
        emit(I);
    });
  }

  // Emit an expression / statement tree as a JSON object.
  void emit(const Stmt *S) {
    if (!S) {
      J.value(nullptr);
      return;
    }
    // transparent wrappers
    while (true) {
      if (auto *P = dyn_cast<ParenExpr>(S)) { S = P->getSubExpr(); continue; }
      if (auto *C = dyn_cast<ConstantExpr>(S)) { S = C->getSubExpr(); continue; }
      if (auto *F = dyn_cast<FullExpr>(S)) { S = F->getSubExpr(); continue; }
      if (auto *O = dyn_cast<OpaqueValueExpr>(S)) {
        if (O->getSourceExpr()) { S = O->getSourceExpr(); continue; }
      }
      break;
    }
    J.object([&] { emitBody(S); });
  }

  void emitBody(const Stmt *S) {
    if (auto *E = dyn_cast<Expr>(S)) {
      // pre-evaluated logical / conditional operators (CFG terminators)
      auto TI = TermIds.find(S);
      if (TI != TermIds.end())
        J.attribute("pe", TI->second);
      if (!isa<InitListExpr>(E) && tryFold(E))
        return;
    }
    switch (S->getStmtClass()) {
    case Stmt::ImplicitCastExprClass: {
      auto *C = cast<ImplicitCastExpr>(S);
      // keep only value-changing integral conversions visible
      J.attribute("k", "cast");
      J.attribute("imp", true);
      J.attribute("t", tyStr(C->getType()));
      J.attribute("ck", C->getCastKindName());
      J.attributeBegin("e");
      emit(C->getSubExpr());
      J.attributeEnd();
      return;
    }
    case Stmt::CStyleCastExprClass: {
      auto *C = cast<CStyleCastExpr>(S);
      J.attribute("k", "cast");
      J.attribute("t", tyStr(C->getType()));
      J.attribute("ck", C->getCastKindName());
      J.attributeBegin("e");
      emit(C->getSubExpr());
      J.attributeEnd();
      return;
    }
    case Stmt::DeclRefExprClass: {
      auto *DR = cast<DeclRefExpr>(S);
      const ValueDecl *D = DR->getDecl();
      if (auto *VD = dyn_cast<VarDecl>(D)) {
        emitVarRef(VD);
      } else if (auto *FD = dyn_cast<FunctionDecl>(D)) {
        J.attribute("k", "fn");
        J.attribute("n", FD->getName());
      } else if (auto *EC = dyn_cast<EnumConstantDecl>(D)) {
        J.attribute("k", "int");
        J.attribute("v", EC->getInitVal().getExtValue());
        J.attribute("n", EC->getName());
      } else {
        J.attribute("k", "other");
        J.attribute("cls", "DeclRef");
      }
      return;
    }
    case Stmt::MemberExprClass: {
      auto *M = cast<MemberExpr>(S);
      J.attribute("k", "mem");
      J.attribute("f", M->getMemberDecl()->getName());
      if (auto *FD = dyn_cast<FieldDecl>(M->getMemberDecl())) {
        J.attribute("r", recName(FD->getParent()));
        if (FD->isBitField())
          J.attribute("bf", true);
      }
      J.attribute("arrow", M->isArrow());
      J.attribute("t", tyStr(M->getType()));
      J.attributeBegin("b");
      emit(M->getBase());
      J.attributeEnd();
      return;
    }
    case Stmt::ArraySubscriptExprClass: {
      auto *A = cast<ArraySubscriptExpr>(S);
      J.attribute("k", "idx");
      J.attribute("t", tyStr(A->getType()));
      J.attributeBegin("b");
      emit(A->getBase());
      J.attributeEnd();
      J.attributeBegin("i");
      emit(A->getIdx());
      J.attributeEnd();
      return;
    }
    case Stmt::UnaryOperatorClass: {
      auto *U = cast<UnaryOperator>(S);
      J.attribute("k", "un");
      J.attribute("op", unop(U->getOpcode()));
      J.attribute("t", tyStr(U->getType()));
      J.attributeBegin("e");
      emit(U->getSubExpr());
      J.attributeEnd();
      return;
    }
    case Stmt::BinaryOperatorClass:
    case Stmt::CompoundAssignOperatorClass: {
      auto *B = cast<BinaryOperator>(S);
      J.attribute("k", "bin");
      J.attribute("op", B->getOpcodeStr());
      J.attribute("t", tyStr(B->getType()));
      J.attributeBegin("l");
      emit(B->getLHS());
      J.attributeEnd();
      J.attributeBegin("r");
      emit(B->getRHS());
      J.attributeEnd();
      return;
    }
    case Stmt::ConditionalOperatorClass: {
      auto *C = cast<ConditionalOperator>(S);
      J.attribute("k", "cond");
      J.attribute("t", tyStr(C->getType()));
      J.attributeBegin("c");
      emit(C->getCond());
      J.attributeEnd();
      J.attributeBegin("a");
      emit(C->getTrueExpr());
      J.attributeEnd();
      J.attributeBegin("b");
      emit(C->getFalseExpr());
      J.attributeEnd();
      return;
    }
    case Stmt::BinaryConditionalOperatorClass: {
      auto *C = cast<BinaryConditionalOperator>(S);
      J.attribute("k", "cond");
      J.attribute("gnu", true);
      J.attribute("t", tyStr(C->getType()));
      J.attributeBegin("c");
      emit(C->getCommon());
      J.attributeEnd();
      J.attributeBegin("a");
      emit(C->getCommon());
      J.attributeEnd();
      J.attributeBegin("b");
      emit(C->getFalseExpr());
      J.attributeEnd();
      return;
    }
    case Stmt::CallExprClass: {
      auto *C = cast<CallExpr>(S);
      J.attribute("k", "call");
      J.attribute("t", tyStr(C->getType()));
      J.attribute("ln", lineOf(C->getBeginLoc()));
      if (const FunctionDecl *FD = C->getDirectCallee()) {
        J.attribute("fn", FD->getName());
        if (FD->getBuiltinID())
          J.attribute("builtin", true);
      } else {
        J.attributeBegin("fp");
        emit(C->getCallee());
        J.attributeEnd();
      }
      J.attributeArray("a", [&] {
        for (const Expr *A : C->arguments())
          emit(A);
      });
      return;
    }
    case Stmt::StringLiteralClass: {
      auto *L = cast<StringLiteral>(S);
      J.attribute("k", "str");
      if (L->getCharByteWidth() == 1) {
        if (llvm::json::isUTF8(L->getBytes()))
          J.attribute("v", L->getBytes());
        else
          J.attribute("hex", llvm::toHex(L->getBytes()));
      }
      J.attribute("len", L->getLength());
      return;
    }
    case Stmt::PredefinedExprClass: {
      J.attribute("k", "str");
      J.attribute("v", "__func__");
      return;
    }
    case Stmt::IntegerLiteralClass:
    case Stmt::CharacterLiteralClass: {
      // not folded (should not happen) - fall through to other
      J.attribute("k", "other");
      J.attribute("cls", S->getStmtClassName());
      return;
    }
    case Stmt::FloatingLiteralClass: {
      J.attribute("k", "float");
      return;
    }
    case Stmt::InitListExprClass: {
      emitInitList(cast<InitListExpr>(S));
      return;
    }
    case Stmt::ImplicitValueInitExprClass: {
      J.attribute("k", "int");
      J.attribute("v", 0);
      J.attribute("zeroinit", true);
      return;
    }
    case Stmt::CompoundLiteralExprClass: {
      auto *C = cast<CompoundLiteralExpr>(S);
      J.attribute("k", "complit");
      J.attribute("t", tyStr(C->getType()));
      J.attributeBegin("e");
      emit(C->getInitializer());
      J.attributeEnd();
      return;
    }
    case Stmt::UnaryExprOrTypeTraitExprClass: {
      J.attribute("k", "other");
      J.attribute("cls", "sizeof-vla");
      return;
    }
    case Stmt::StmtExprClass: {
      auto *SE = cast<StmtExpr>(S);
      J.attribute("k", "stmtexpr");
      J.attribute("t", tyStr(SE->getType()));
      // value = last expression of the compound, if any
      const CompoundStmt *CS = SE->getSubStmt();
      if (CS && !CS->body_empty())
        if (auto *LE = dyn_cast<Expr>(CS->body_back())) {
          J.attributeBegin("last");
          emit(LE);
          J.attributeEnd();
        }
      return;
    }
    case Stmt::DeclStmtClass: {
      auto *DS = cast<DeclStmt>(S);
      J.attribute("k", "decl");
      if (DS->isSingleDecl()) {
        if (auto *VD = dyn_cast<VarDecl>(DS->getSingleDecl())) {
          J.attributeBegin("var");
          J.object([&] { emitVarRef(VD); });
          J.attributeEnd();
          if (VD->isStaticLocal())
            J.attribute("static", true);
          if (VD->hasInit()) {
            J.attributeBegin("init");
            emit(VD->getInit());
            J.attributeEnd();
          }
          if (const ConstantArrayType *AT =
                  Ctx.getAsConstantArrayType(VD->getType()))
            J.attribute("alen", (int64_t)AT->getSize().getZExtValue());
        }
      }
      return;
    }
    case Stmt::ReturnStmtClass: {
      auto *R = cast<ReturnStmt>(S);
      J.attribute("k", "ret");
      if (R->getRetValue()) {
        J.attributeBegin("e");
        emit(R->getRetValue());
        J.attributeEnd();
      }
      return;
    }
    case Stmt::GCCAsmStmtClass: {
      J.attribute("k", "asm");
      return;
    }
    case Stmt::VAArgExprClass: {
      J.attribute("k", "vaarg");
      J.attribute("t", tyStr(cast<Expr>(S)->getType()));
      return;
    }
    default: {
      J.attribute("k", "other");
      J.attribute("cls", S->getStmtClassName());
      // keep children so that calls / writes inside are still seen
      J.attributeArray("ch", [&] {
        for (const Stmt *C : S->children())
          if (C)
            emit(C);
      });
      return;
    }
    }
  }

  // ---------------------------------------------------------------- CFG
  void markNested(const Stmt *S, const std::set<const Stmt *> &Elems,
                  std::set<const Stmt *> &Nested, bool Top) {
    if (!S)
      return;
    if (!Top) {
      if (Elems.count(S))
        Nested.insert(S);
      if (TermIds.count(S))
        return; // its operands are evaluated in earlier blocks
    }
    if (isa<StmtExpr>(S))
      return; // inner statements are separate CFG elements
    for (const Stmt *C : S->children())
      markNested(C, Elems, Nested, false);
  }

  const char *termKind(const Stmt *T) {
    if (!T) return nullptr;
    switch (T->getStmtClass()) {
    case Stmt::IfStmtClass: return "if";
    case Stmt::WhileStmtClass: return "while";
    case Stmt::ForStmtClass: return "for";
    case Stmt::DoStmtClass: return "do";
    case Stmt::SwitchStmtClass: return "switch";
    case Stmt::GotoStmtClass: return "goto";
    case Stmt::BreakStmtClass: return "break";
    case Stmt::ContinueStmtClass: return "continue";
    case Stmt::IndirectGotoStmtClass: return "igoto";
    case Stmt::ConditionalOperatorClass: return "cond";
    case Stmt::BinaryConditionalOperatorClass: return "cond";
    case Stmt::BinaryOperatorClass:
      return cast<BinaryOperator>(T)->getOpcode() == BO_LAnd ? "and" : "or";
    default: return T->getStmtClassName();
    }
  }

  void emitFunction(const FunctionDecl *FD) {
    LocalIds.clear();
    TermIds.clear();
    NextLocal = 0;
    CFG::BuildOptions BO;
    BO.PruneTriviallyFalseEdges = true;
    BO.AddImplicitDtors = false;
    BO.AddInitializers = false;
    std::unique_ptr<CFG> G =
        CFG::buildCFG(FD, FD->getBody(), &Ctx, BO);
    J.object([&] {
      J.attribute("name", FD->getName());
      J.attribute("file", fileOf(FD->getLocation()));
      J.attribute("line", lineOf(FD->getLocation()));
      J.attribute("endline", lineOf(FD->getBody()->getEndLoc()));
      J.attribute("static", FD->getStorageClass() == SC_Static);
      {
        // declared in a header => callable from other modules / the application
        bool inHdr = false, inApi = false;
        for (const FunctionDecl *R : FD->redecls()) {
          llvm::StringRef F = SM.getFilename(SM.getExpansionLoc(R->getLocation()));
          if (F.endswith(".h")) {
            inHdr = true;
            // public interface headers of the three libraries: matrixsslApi.h, cryptoApi.h, coreApi.h, ...
            if (llvm::sys::path::filename(F).contains("Api"))
              inApi = true;
          }
        }
        J.attribute("hdr", inHdr);
        J.attribute("api", inApi);
      }
      J.attribute("inline", FD->isInlineSpecified());
      J.attribute("ret", tyStr(FD->getReturnType()));
      J.attribute("variadic", FD->isVariadic());
      J.attributeArray("params", [&] {
        for (const ParmVarDecl *P : FD->parameters())
          J.object([&] { emitVarRef(P); });
      });
      if (!G) {
        J.attribute("nocfg", true);
        return;
      }
      // ids for logical / conditional terminators
      unsigned tid = 1;
      std::set<const Stmt *> Elems;
      for (const CFGBlock *B : *G) {
        const Stmt *T = B->getTerminatorStmt();
        if (T && (isa<AbstractConditionalOperator>(T) ||
                  (isa<BinaryOperator>(T) &&
                   cast<BinaryOperator>(T)->isLogicalOp())))
          TermIds[T] = tid++;
        for (const CFGElement &El : *B)
          if (auto CS = El.getAs<CFGStmt>())
            Elems.insert(CS->getStmt());
      }
      std::set<const Stmt *> Nested;
      for (const Stmt *S : Elems)
        markNested(S, Elems, Nested, true);
      J.attribute("entry", G->getEntry().getBlockID());
      J.attribute("exit", G->getExit().getBlockID());
      J.attributeArray("blocks", [&] {
        for (const CFGBlock *B : *G) {
          J.object([&] {
            J.attribute("id", B->getBlockID());
            const Stmt *T = B->getTerminatorStmt();
            const Stmt *CondEl = nullptr;
            bool branching = false;
            if (T && B->succ_size() >= 2) {
              branching = true;
              if (isa<SwitchStmt>(T)) {
                // condition is the last element
              }
              if (!B->empty())
                if (auto CS = B->back().getAs<CFGStmt>())
                  CondEl = CS->getStmt();
            }
            if (const Stmt *L = B->getLabel()) {
              if (auto *LS = dyn_cast<LabelStmt>(L))
                J.attribute("label", LS->getName());
            }
            J.attributeArray("el", [&] {
              for (const CFGElement &El : *B) {
                auto CS = El.getAs<CFGStmt>();
                if (!CS)
                  continue;
                const Stmt *S = CS->getStmt();
                if (S == CondEl)
                  continue;
                if (Nested.count(S))
                  continue;
                J.object([&] {
                  J.attribute("ln", lineOf(S->getBeginLoc()));
                  J.attribute("s", srcText(S));
                  J.attributeBegin("x");
                  emit(S);
                  J.attributeEnd();
                });
              }
            });
            if (T) {
              J.attributeBegin("term");
              J.object([&] {
                J.attribute("k", termKind(T));
                J.attribute("ln", lineOf(T->getBeginLoc()));
                auto TI = TermIds.find(T);
                if (TI != TermIds.end())
                  J.attribute("tid", TI->second);
                if (auto *GS = dyn_cast<GotoStmt>(T))
                  J.attribute("label", GS->getLabel()->getName());
                if (branching && CondEl) {
                  J.attribute("s", srcText(CondEl));
                  J.attributeBegin("c");
                  emit(CondEl);
                  J.attributeEnd();
                }
              });
              J.attributeEnd();
            }
            J.attributeArray("succ", [&] {
              for (auto I = B->succ_begin(), E = B->succ_end(); I != E; ++I) {
                const CFGBlock *SB = I->getReachableBlock();
                J.object([&] {
                  if (!SB) {
                    J.attribute("b", nullptr);
                    if (const CFGBlock *U = I->getPossiblyUnreachableBlock())
                      J.attribute("ub", U->getBlockID());
                    return;
                  }
                  J.attribute("b", SB->getBlockID());
                  if (T && isa<SwitchStmt>(T)) {
                    const Stmt *L = SB->getLabel();
                    if (L && isa<CaseStmt>(L)) {
                      auto *CS = cast<CaseStmt>(L);
                      Expr::EvalResult R;
                      if (CS->getLHS()->EvaluateAsInt(R, Ctx))
                        J.attribute("case", R.Val.getInt().getExtValue());
                      if (CS->getRHS() && CS->getRHS()->EvaluateAsInt(R, Ctx))
                        J.attribute("hi", R.Val.getInt().getExtValue());
                    } else {
                      J.attribute("default", true);
                    }
                  }
                });
              }
            });
          });
        }
      });
    });
  }

  void emitRecord(const RecordDecl *RD) {
    J.object([&] {
      J.attribute("name", recName(RD));
      J.attribute("union", RD->isUnion());
      J.attribute("file", fileOf(RD->getLocation()));
      J.attribute("line", lineOf(RD->getLocation()));
      bool ok = !RD->isInvalidDecl() && !RD->isDependentType();
      const ASTRecordLayout *L = ok ? &Ctx.getASTRecordLayout(RD) : nullptr;
      if (L)
        J.attribute("size", (int64_t)L->getSize().getQuantity());
      J.attributeArray("fields", [&] {
        unsigned i = 0;
        for (const FieldDecl *FD : RD->fields()) {
          J.object([&] {
            J.attribute("n", FD->getName());
            J.attribute("t", tyStr(FD->getType()));
            if (L)
              J.attribute("off", (int64_t)L->getFieldOffset(i));
            if (const ConstantArrayType *AT =
                    Ctx.getAsConstantArrayType(FD->getType())) {
              J.attribute("alen", (int64_t)AT->getSize().getZExtValue());
              J.attribute("et", tyStr(AT->getElementType()));
            }
            if (!FD->getType()->isIncompleteType() &&
                !FD->getType()->isDependentType())
              J.attribute("sz", (int64_t)Ctx.getTypeSizeInChars(FD->getType())
                                    .getQuantity());
            if (const RecordType *RT = FD->getType()->getAs<RecordType>())
              J.attribute("rec", recName(RT->getDecl()));
          });
          ++i;
        }
      });
    });
  }
};

class Consumer : public ASTConsumer {
public:
  Consumer(CompilerInstance &CI, std::vector<MacroRec> &Macros)
      : CI(CI), Macros(Macros) {}
  void HandleTranslationUnit(ASTContext &Ctx) override {
    std::error_code EC;
    llvm::raw_fd_ostream OS(g_out, EC);
    if (EC) {
      llvm::errs() << "cfgx: cannot open " << g_out << "\n";
      return;
    }
    llvm::json::OStream J(OS);
    Emitter Em(Ctx, J);
    SourceManager &SM = Ctx.getSourceManager();
    TranslationUnitDecl *TU = Ctx.getTranslationUnitDecl();
    J.object([&] {
      J.attribute("main",
                  SM.getFileEntryForID(SM.getMainFileID())
                      ? SM.getFileEntryForID(SM.getMainFileID())->getName()
                      : "");
      J.attribute("errors", CI.getDiagnostics().getClient()->getNumErrors());
      J.attributeArray("functions", [&] {
        for (Decl *D : TU->decls()) {
          auto *FD = dyn_cast<FunctionDecl>(D);
          if (!FD || !FD->doesThisDeclarationHaveABody())
            continue;
          SourceLocation L = SM.getExpansionLoc(FD->getLocation());
          if (SM.isInSystemHeader(L))
            continue;
          if (!SM.isInMainFile(L) && !FD->isUsed() && !FD->isReferenced())
            continue;
          Em.emitFunction(FD);
        }
      });
      J.attributeArray("fdecls", [&] {
        // prototypes (for parameter names / types of external functions)
        std::set<std::string> Seen;
        for (Decl *D : TU->decls()) {
          auto *FD = dyn_cast<FunctionDecl>(D);
          if (!FD || FD->doesThisDeclarationHaveABody())
            continue;
          SourceLocation L = SM.getExpansionLoc(FD->getLocation());
          if (SM.isInSystemHeader(L))
            continue;
          if (!Seen.insert(FD->getName().str()).second)
            continue;
          J.object([&] {
            J.attribute("name", FD->getName());
            J.attribute("ret", Em.tyStr(FD->getReturnType()));
            J.attributeArray("params", [&] {
              for (const ParmVarDecl *P : FD->parameters())
                J.object([&] {
                  J.attribute("n", P->getName());
                  J.attribute("t", Em.tyStr(P->getType()));
                });
            });
          });
        }
      });
      J.attributeArray("records", [&] {
        std::set<const RecordDecl *> Done;
        std::vector<const DeclContext *> Work{TU};
        while (!Work.empty()) {
          const DeclContext *DC = Work.back();
          Work.pop_back();
          for (Decl *D : DC->decls()) {
            auto *RD = dyn_cast<RecordDecl>(D);
            if (!RD)
              continue;
            if (RD->isCompleteDefinition() &&
                !SM.isInSystemHeader(SM.getExpansionLoc(RD->getLocation())) &&
                Done.insert(RD).second)
              Em.emitRecord(RD);
            if (RD->isCompleteDefinition())
              Work.push_back(RD);
          }
        }
      });
      J.attributeArray("globals", [&] {
        for (Decl *D : TU->decls()) {
          auto *VD = dyn_cast<VarDecl>(D);
          if (!VD)
            continue;
          SourceLocation L = SM.getExpansionLoc(VD->getLocation());
          if (SM.isInSystemHeader(L))
            continue;
          if (!VD->isThisDeclarationADefinition() && !VD->hasInit())
            continue;
          J.object([&] {
            J.attribute("name", VD->getName());
            J.attribute("static", VD->getStorageClass() == SC_Static);
            J.attribute("t", Em.tyStr(VD->getType()));
            J.attribute("const", VD->getType().isConstQualified());
            J.attribute("file", Em.fileOf(VD->getLocation()));
            J.attribute("line", Em.lineOf(VD->getLocation()));
            if (const ConstantArrayType *AT =
                    Ctx.getAsConstantArrayType(VD->getType()))
              J.attribute("alen", (int64_t)AT->getSize().getZExtValue());
            if (VD->hasInit()) {
              J.attributeBegin("init");
              Em.emit(VD->getInit());
              J.attributeEnd();
            }
          });
        }
      });
      J.attributeArray("enums", [&] {
        for (Decl *D : TU->decls()) {
          auto *ED = dyn_cast<EnumDecl>(D);
          if (!ED || !ED->isCompleteDefinition())
            continue;
          if (SM.isInSystemHeader(SM.getExpansionLoc(ED->getLocation())))
            continue;
          for (const EnumConstantDecl *EC : ED->enumerators())
            J.object([&] {
              J.attribute("n", EC->getName());
              J.attribute("v", EC->getInitVal().getExtValue());
            });
        }
      });
      // configuration switches: object-like macros with an empty body (#define USE_X)
      J.attributeArray("flags", [&] {
        for (const MacroRec &M : Macros)
          if (M.body.empty())
            J.value(M.name);
      });
      J.attributeArray("macros", [&] {
        for (const MacroRec &M : Macros)
          if (!M.body.empty())
          J.object([&] {
            J.attribute("n", M.name);
            J.attribute("b", llvm::json::fixUTF8(M.body));
            J.attribute("file", M.file);
            J.attribute("line", M.line);
          });
      });
    });
    OS << "\n";
  }

private:
  CompilerInstance &CI;
  std::vector<MacroRec> &Macros;
};

class Action : public ASTFrontendAction {
public:
  std::unique_ptr<ASTConsumer> CreateASTConsumer(CompilerInstance &CI,
                                                 llvm::StringRef) override {
    CI.getPreprocessor().addPPCallbacks(
        std::make_unique<MacroCollector>(CI.getPreprocessor(), Macros));
    return std::make_unique<Consumer>(CI, Macros);
  }
  std::vector<MacroRec> Macros;
};

class Factory : public tooling::FrontendActionFactory {
public:
  std::unique_ptr<FrontendAction> create() override {
    return std::make_unique<Action>();
  }
};

} // namespace

int main(int argc, const char **argv) {
  if (argc < 4) {
    llvm::errs() << "usage: cfgx <out.json> <source.c> -- <flags>\n";
    return 2;
  }
  g_out = argv[1];
  std::string Src = argv[2];
  int dd = 3;
  while (dd < argc && std::string(argv[dd]) != "--")
    ++dd;
  std::vector<std::string> Flags;
  for (int i = dd + 1; i < argc; ++i)
    Flags.push_back(argv[i]);
  tooling::FixedCompilationDatabase DB(".", Flags);
  tooling::ClangTool Tool(DB, {Src});
  Factory F;
  int rc = Tool.run(&F);
  return rc;
}
