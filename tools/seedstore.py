#!/usr/bin/env python3
"""usage: tools/seedstore.py <worktree> <seed-id> <property> <caught-by or -> <needs...>"""
import json, os, shutil, subprocess, sys
wt, sid, prop, caught = sys.argv[1:5]
needs = " ".join(sys.argv[5:])
dst = os.path.join("/verif/seeded", sid)
os.makedirs(dst, exist_ok=True)
def _is_binary(path):
    try:
        with open(path, "rb") as fh:
            return fh.read(4) == b"\x7fELF"
    except OSError:
        return True
for root, dirs, files in os.walk(os.path.join(wt, "_seed")):
    rel = os.path.relpath(root, os.path.join(wt, "_seed"))
    if rel.count(os.sep) > 1:
        dirs[:] = []
        continue
    for f in files:
        src = os.path.join(root, f)
        # sources, notes, probes and logs; no executables, nothing large
        if os.path.islink(src) or os.path.getsize(src) >= 400000 or _is_binary(src) or f.endswith((".o", ".a")):
            continue
        d2 = dst if rel == "." else os.path.join(dst, rel)
        os.makedirs(d2, exist_ok=True)
        shutil.copy(src, os.path.join(d2, f))
meta = {"id": sid, "breaks_property": prop, "needs_to_manifest": needs,
        "confirmed": {"how": "tools/seedconfirm.sh <scratch worktree>: build with patch, pinned tests "
                             "(algorithmTest, eccTest, rsaTest, hmacTest), demo with and without the patch",
                      "result": open(os.path.join(wt, "_seed", "confirm.log")).read()[-300:] if os.path.exists(os.path.join(wt, "_seed", "confirm.log")) else ""},
        "check_result": caught,
        "how_to_run_checks": "tools/seedcheck.sh seeded/%s/patch.diff %s" % (sid, prop)}
json.dump(meta, open(os.path.join(dst, "meta.json"), "w"), indent=1)
print("stored", dst)
