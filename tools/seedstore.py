#!/usr/bin/env python3
"""usage: tools/seedstore.py <worktree> <seed-id> <property> <caught-by or -> <needs...>"""
import json, os, shutil, subprocess, sys
wt, sid, prop, caught = sys.argv[1:5]
needs = " ".join(sys.argv[5:])
dst = os.path.join("/verif/seeded", sid)
os.makedirs(dst, exist_ok=True)
for f in os.listdir(os.path.join(wt, "_seed")):
    src = os.path.join(wt, "_seed", f)
    if os.path.isfile(src) and not f == "demo" and os.path.getsize(src) < 400000:
        shutil.copy(src, os.path.join(dst, f))
meta = {"id": sid, "breaks_property": prop, "needs_to_manifest": needs,
        "confirmed": {"how": "tools/seedconfirm.sh <scratch worktree>: build with patch, pinned tests "
                             "(algorithmTest, eccTest, rsaTest, hmacTest), demo with and without the patch",
                      "result": open(os.path.join(wt, "_seed", "confirm.log")).read()[-300:] if os.path.exists(os.path.join(wt, "_seed", "confirm.log")) else ""},
        "check_result": caught,
        "how_to_run_checks": "tools/seedcheck.sh seeded/%s/patch.diff %s" % (sid, prop)}
json.dump(meta, open(os.path.join(dst, "meta.json"), "w"), indent=1)
print("stored", dst)
