#!/usr/bin/env python3
"""Regenerates the tables of DESIGN.md section S.2 (rules and instance counts, from evidence/*.json) and S.5 (seeded
changes, from seeded/*/meta.json) between their marker comments.  Run after the checks have refreshed the evidence."""
import glob, json, re, subprocess
D = "/verif/DESIGN.md"
s = open(D).read()
fixed = {}
known = {}
for l in open("/verif/known_findings.jsonl"):
    l = l.strip()
    if not l or l.startswith("#"):
        continue
    e = json.loads(l)
    if e.get("status") == "fixed":
        fixed[e["property"]] = fixed.get(e["property"], 0) + 1
    elif e.get("status") == "known":
        known[e["property"]] = known.get(e["property"], 0) + 1
rows = []
for f in sorted(glob.glob("/verif/evidence/C*.json")):
    e = json.load(open(f))
    rules = e.get("coverage", {}).get("rules", {})
    parts = []
    for rid, r in rules.items():
        t = r.get("text", "")
        t = t if len(t) <= 110 else t[:107] + "..."
        parts.append("%s %s (%s)" % (rid.split(".")[-1], t, r.get("instances")))
    pid = e["property_id"]
    verdict = "holds"
    if known.get(pid):
        verdict += " with %d known finding%s" % (known[pid], "" if known[pid] == 1 else "s")
    if fixed.get(pid):
        verdict += " (%d fixed-defect entr%s)" % (fixed[pid], "y" if fixed[pid] == 1 else "ies")
    rows.append("| %s | %s | %s |" % (pid, "; ".join(parts).replace("|", "/"), verdict))
t2 = "| id | rules implemented: text (instances on the current tree) | verdict today |\n|---|---|---|\n" + "\n".join(rows)
s = re.sub(r"<!-- S2-BEGIN -->.*?<!-- S2-END -->", lambda m: "<!-- S2-BEGIN -->\n" + t2 + "\n<!-- S2-END -->", s, flags=re.S)
rows = []
tally = {"caught": 0, "missed": 0, "not": 0}
for d in sorted(glob.glob("/verif/seeded/*/")):
    m = json.load(open(d + "meta.json"))
    cr = m.get("check_result", "")
    rule = re.findall(r"C\d\d\.R\w+", cr)
    first = "caught"
    low = cr.lower()
    if low.startswith("missed") or low.startswith("not decided"):
        first = "missed, rule added"
    if cr.startswith("NOT caught"):
        first = "not caught"
    tally["caught" if first == "caught" else "not" if first == "not caught" else "missed"] += 1
    needs = re.sub(r"^#.*?## ", "", m.get("needs_to_manifest", "").replace("\n", " "))[:120]
    rows.append("| %s | %s | %s | %s |" % (m["id"], needs.replace("|", "/"), ", ".join(dict.fromkeys(rule[-2:])) if first != "not caught" else "-", first))
t5 = ("Tally over all %d stored seeds: %d caught by the check as it stood when the seed arrived, %d missed (each led to a new or sharpened "
      "rule and is caught now), %d not caught by design (C16-2: liveness, not claimed; C09-3: property not claimed).\n\n"
      "| change | needs, to manifest | caught by | first run |\n|---|---|---|---|\n" % (len(rows), tally["caught"], tally["missed"], tally["not"])) + "\n".join(rows)
s = re.sub(r"<!-- S5-BEGIN -->.*?<!-- S5-END -->", lambda m: "<!-- S5-BEGIN -->\n" + t5 + "\n<!-- S5-END -->", s, flags=re.S)
open(D, "w").write(s)
print("S.2 rows:", len(glob.glob('/verif/evidence/C*.json')), " S.5 rows:", len(rows), tally)
