#!/bin/sh
# usage: tools/seedconfirm.sh <seed worktree>   (expects <wt>/_seed/{patch.diff,build.sh,demo.c})
# Confirms: tree builds with the patch, pinned tests pass, demo FAILS with the patch and PASSES without.
# (no `git stash`: the stash is shared between all worktrees of a repository)
wt=$1
cd "$wt" || exit 2
log="$wt/_seed/confirm.log"; : > "$log"
run_demo() { (cd "$wt/_seed" && sh ./build.sh "$wt" >>"$log" 2>&1; ./demo >>"$log" 2>&1; echo $?); }
git -C "$wt" checkout -q -- core crypto matrixssl 2>/dev/null
git -C "$wt" apply "$wt/_seed/patch.diff" || { echo "patch.diff does not apply to a clean checkout"; exit 1; }
make libs tests >>"$log" 2>&1 || { echo "BUILD FAILED with patch"; exit 1; }
t=0; for x in algorithmTest eccTest rsaTest hmacTest; do (cd crypto/test && ./$x >>"$log" 2>&1) || t=1; done
with=$(run_demo)
git -C "$wt" checkout -q -- core crypto matrixssl
make libs >>"$log" 2>&1
without=$(run_demo)
git -C "$wt" apply "$wt/_seed/patch.diff"
make libs >>"$log" 2>&1
echo "pinned_tests_rc=$t demo_with_patch_rc=$with demo_without_patch_rc=$without"
