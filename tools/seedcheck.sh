#!/bin/sh
# usage: tools/seedcheck.sh <patch.diff> <prop> [<prop>...]
# Applies the patch to a scratch worktree of /repo's HEAD (outside /repo and /verif), runs the given
# checks against it (VERIF_REPO), prints their verdict lines, and removes the worktree.
set -e
patch=$(readlink -f "$1"); shift
wt=$(mktemp -d /tmp/seedchk.XXXXXX); rmdir "$wt"
git -C /repo worktree add -q "$wt" HEAD
for f in crypto/cryptoConfig.h matrixssl/matrixsslConfig.h core/config/coreConfig.h; do
  [ -f /repo/$f ] && cp /repo/$f "$wt/$f"
done
if ! git -C "$wt" apply "$patch"; then echo "PATCH DOES NOT APPLY"; git -C /repo worktree remove --force "$wt"; exit 3; fi
rcs=""
for p in "$@"; do
  set +e
  VERIF_REPO="$wt" VERIF_EVIDENCE_DIR=/tmp/seedchk_evidence /verif/check "$p" > "$wt/.out_$p" 2>&1
  rc=$?
  set -e
  echo "== $p exit=$rc"
  grep -A1 "^VIOLATION\|ANALYSIS-BROKEN\|KNOWN-FINDING" "$wt/.out_$p" | head -20 || true
  rcs="$rcs $p=$rc"
done
git -C /repo worktree remove --force "$wt"
echo "RESULT$rcs"
